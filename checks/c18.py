"""C18 - coupled strength and grain-growth models stay physical and aligned.

Three kinds of cases, all executing the real classes in kawin/precipitation/coupling:

formula   (StrengthModel, no thermodynamics) - a block of random parameter sets. For every set
  contrib_nonneg_finite   every array returned by getStrengthContributions (weak, strong, Orowan) is finite
                          and >= 0 on (r, Ls) arrays that contain zeros, sub-core radii (r < ri, r < ri/2),
                          spacings below the core radius and ordinary values; phases 'all', two named phases
                          (global / phase specific / overriding parameters) and an unknown phase
  strength_nonneg_finite  combineStrengthContributions (both return forms), precStrength over a 1-3 phase
                          host, ssStrength history and totalStrength are finite and >= 0
  zero_without_precipitates  (r, Ls) = (0, 0) - what rssterm/Lsterm report for an empty distribution - gives
                          exactly 0; host rows in which every phase is empty give precStrength 0
  taylor_min_rule         strength == min(model's own three branch values) (<= 1e-12 relative, same numbers),
                          both return forms agree, and the model's branch values are Taylor factor x the
                          documented superposition (sum c_i^n)^(1/n) of the contributions it returned
                          (1e-12: the oracle repeats the arithmetic); for a one-phase host precStrength is the
                          same number
  total_ge_parts          totalStrength >= base, solid-solution and precipitate part (1e-12 relative slack)
  total_monotone          raising one part (relative 1e-6, 1e-2, 1 and an absolute bump) never lowers the total
                          (finite differences, 1e-12 relative slack for rounding of pow)
  mixed_reduces           mixed formula at theta = 90 / 0 degrees equals the *Edge / *Screw formula within 5e-3
                          relative (the mixed formulas carry constants rounded to 3-5 digits: 1.43e-3 for
                          APB-strong, <= 3.1e-5 elsewhere, independent of the parameters) for both line tension
                          models and both J models; pairs: coherency weak/strong, modulus weak, APB weak/strong,
                          SFE weak/strong (narrow-fault formulas: the mixed formula is the narrow one),
                          interfacial weak
  stub_history_len        a duck-typed host (real PopulationBalanceModel objects, composition history) driven
                          through updateCoupledModel k times leaves k+1 rows in rss, ls and solidStrength

grain     (GrainGrowthModel standalone, solved with the real solver; RK4 or Euler wrapped by a monitoring
           iterator, an observer registered as coupling model of the grain model)
  gg_volume               third moment of the distribution after every step equals the initial one (1) <= 1e-12
  gg_mean_nondecreasing   without drag the recorded mean radius never decreases (1e-12 relative slack)
  gg_drag_rate            at every derivative evaluation the rate the model used (constrained) has the sign of
                          the free rate or is zero, and |constrained| <= |free| (exact comparisons); the same
                          on direct calls of constrainedGrowth with random rate arrays
  gg_freeze               drag above the critical drag (max |free rate| / (alpha M gbe), over all class
                          boundaries / over the boundaries of populated classes): constrained rate identically
                          zero at every evaluation, distribution and mean size unchanged (1e-12 relative, the
                          step re-normalises), clock advanced by the requested time

grain_reset  (histories with reset(): distribution loaded from data - LoadDistribution - or from a function, then
           solve -> (solve) -> reset() -> same solve calls -> reset() -> same solve calls; driven standalone through
           solve() with the monitoring iterator, or through the public coupling entry point updateCoupledModel by a
           duck-typed host without precipitates (scripted host steps, drag 0); the real-host variant is part of the
           coupled cases: host.reset() + grain.reset() and the first solve call again)
  gg_volume               is also evaluated on the state right after reset() (third moment 1: volume conserved over any
                          number of solve calls, with resets in between)
  (observation, NOT asserted) right after reset() the distribution, class bounds, mean of the distribution, clock and
                          history length equal the loaded, normalised state (counters reset_state_compared_* /
                          reset_state_differs_*): holds bitwise on the unchanged tree, but what reset() restores is not part
                          of C18's statement
  (observation, NOT asserted) does the run after reset() retrace the first run / do two runs after reset() coincide:
                          residuals retrace_*_rel_<pair> and counters reset_run_does_not_retrace_first_run,
                          runs_after_reset_differ_from_each_other, reset_does_not_restore_dissolution_index. The statement
                          does not claim retracing: reset() leaves dissolutionIndex = 0 and avgR[0] = 0 (the Load*
                          functions derive both), so the first step after reset() is shorter and the trajectories differ
                          by the discretisation error (mean ~1e-4); outside C18 (documented in
                          proposed_fixes/C18-reset-not-restoring-derived-state.*)
  gg_volume / gg_mean_nondecreasing / coupled_clock are evaluated after every grain step / host step of all three runs,
  the mean-size chain of a run starts at the mean size of the distribution it starts from (not at avgR[0], which
  reset() leaves at 0 - recorded as reset_leaves_avgR0_different_from_loaded, not asserted).

coupled   (PrecipitateModel, Al-Zr binary of kawin/tests/test_precipitation.py, <= 200 host steps, 1-3 solve
           calls; StrengthModel and/or GrainGrowthModel registered first, the observer last)
  coupled_strength_len    after every host step rss, ls and solidStrength have pData.n + 1 rows and pData.n
                          equals the number of steps the observer has seen
  coupled_clock           after every host step grain clock == host clock (1e-12 relative)
  plus strength_nonneg_finite / total_ge_parts / zero_without_precipitates on the recorded histories.

Reporting: a failing mechanism (monitor + mech) is reported once per case so that repeats of one mechanism cannot use
up the three violation slots the harness keeps per monitor and case; a violation is first looked for among the points
that an already recorded mechanism does NOT explain (mech cause/off_by = 'other'), then among those it does.

Seen on the unchanged tree (triaged, see /verif/proposed_fixes/C18-*):
  * Orowan term negative below half the core radius -> negative contribution / strength, NaN from precStrength and
    totalStrength (mech cause = orowan_negative_below_half_core; fix diff: clip like the weak/strong contributions)
  * J model 'complex': mixed coherency-strong and SFE-strong formulas lack the factor J of their edge/screw
    counterparts (mech off_by = J)
  * mean grain radius dips at a step whose grid adjustment re-samples the distribution (mech grid = resampled)

Decisions where the statement is silent (not asserted):
  * raw formula functions (coherencyWeak, APBweak, orowan, ...) may be negative/NaN by construction; "contribution"
    means what the public getStrengthContributions returns (the anchor names its clipping).
  * how phases are superposed in precStrength (exponents by mechanism class) is not stated: only finiteness, sign,
    the one-phase identity and the zero rule are asserted for it.
  * interfacialStrongOld ("Old", "independent of dislocation type") and the wide-fault SFE formulas are not edge or
    screw limits of the mixed formulas and are not compared; modulusStrong has no edge/screw counterpart.
  * under moderate drag the mean size may decrease (seen in the probe) - not asserted.
  * pre-normalisation volume drift of a step is recorded (worst residual) but not asserted: the statement is decided
    on the state the model publishes after each step.
  * a re-mesh during a frozen step (would be counted as frozen_remesh) is excluded from the array comparison.
  * initial grain size distributions are contained in the grid (last class empty). A distribution cut off by the upper
    grid edge loses grains through that edge in the first step (the grid is extended only afterwards) and its mean dips
    by ~1e-5; this is treated as an inadmissible input, not as a violation.
"""
import json
import math
import types

import numpy as np

from vlib.core import StopRun, case_rng

PROPERTY = 'C18'
LEVEL = 'exploration'
RULE = ('formula case = block of random StrengthModel parameter sets (G, b, nu, core radius, angle, bending angle, T model x J model, '
        'Taylor factor, 4 exponents, subset of 5 cutting mechanisms each global/phase specific/overriding) x (r, Ls) arrays with zeros, '
        'sub-core and sub-half-core radii; non-trivial when >= 10 sets have >= 2 active mechanisms and zero and sub-core radii were evaluated. '
        'grain case = one standalone GrainGrowthModel run (distribution kind, grid, mobility, solver) free -> moderate drag -> supercritical drag; '
        'non-trivial when the free phase has >= 30 steps. grain_reset case = load (data / function) -> solve calls -> reset() -> same calls -> reset() -> same calls, '
        'standalone or driven by a stub host; non-trivial when the first run has >= 30 steps. coupled case = Al-Zr PrecipitateModel with StrengthModel and/or GrainGrowthModel, '
        '1-3 solve calls, <= 200 steps; non-trivial when >= 30 host steps were observed. distinct by case description (kind, block/run, seed)')
REQUIRED_MONITORS = ['contrib_nonneg_finite', 'strength_nonneg_finite', 'zero_without_precipitates', 'taylor_min_rule',
                     'total_ge_parts', 'total_monotone', 'mixed_reduces', 'stub_history_len',
                     'gg_volume', 'gg_mean_nondecreasing', 'gg_drag_rate', 'gg_freeze',
                     'coupled_strength_len', 'coupled_clock']
_S = 'precipitation/coupling/Strength.py:StrengthModel.'
_G = 'precipitation/coupling/GrainGrowth.py:GrainGrowthModel.'
REACH = [_S + 'getStrengthContributions', _S + 'combineStrengthContributions', _S + 'precStrength', _S + 'totalStrength',
         _S + 'rssterm', _S + 'Lsterm', _S + 'updateCoupledModel', _S + 'ssStrength', _S + 'orowan',
         _S + 'coherencyStrong', _S + 'coherencyStrongEdge', _S + 'coherencyStrongScrew', _S + 'Jcomplex', _S + 'Tcomplex',
         _G + 'grainGrowth', _G + 'constrainedGrowth', _G + 'Normalize', _G + 'postProcess', _G + 'updateCoupledModel',
         _G + 'computeZenerRadius', _G + 'reset', _G + 'LoadDistribution', _G + 'LoadDistributionFunction', 'GenericModel.py:GenericModel.updateCoupledModels',
         'precipitation/KWNBase.py:PrecipitateBase.postProcess']
MIN_NONTRIVIAL = {'quick': 72, 'thorough': 2200}
CASE_TIMEOUT = 600
MAX_INCONCLUSIVE_FRACTION = 0.0
ASSUMPTIONS = ['"for all" is sampled: random parameter sets, distributions and short coupled runs',
               'branch value of a mechanism class = documented superposition (sum c_i^n)^(1/n) (setStrengthSuperpositionExponent)',
               'strength parameters are drawn physically admissible (moduli, energies, weights, exponents >= 1, drag >= 0)',
               'grid parameters of the grain model are drawn in range (minBins <= bins <= maxBins)',
               'coupled clause on a fresh grain model (clock 0) attached before the first host step']

N_FORMULA = {'quick': 50, 'thorough': 1500}
N_GRAIN = {'quick': 20, 'thorough': 600}
N_COUPLED = {'quick': 4, 'thorough': 120}
N_RESET = {'quick': 16, 'thorough': 480}
SETS_PER_BLOCK = 100

TOL_ARITH = 1e-12        # oracle repeats the arithmetic
TOL_REDUCE = 5e-3        # rounded constants of the mixed formulas (measured 1.43e-3 max, parameter independent)
MAX_GRAIN_STEPS = 4000
MAX_HOST_STEPS = 200


def _chk(R, monitor, ok, mech=None, **detail):
    """R.check, but a failing mechanism (monitor + mech) is reported once per case: the harness keeps at most three
    violations per monitor and case, and repeats of an already reported (possibly known) mechanism must not crowd out a
    different one. Repeats are still counted as evaluations and as observed events."""
    if ok:
        return R.check(monitor, True)
    seen = R.__dict__.setdefault('_c18_seen', set())
    sig = (monitor, json.dumps(mech or {}, sort_keys=True, default=str))
    if sig in seen:
        R.count(monitor, 1)
        R.observe('repeated_violation_' + monitor)
        return False
    seen.add(sig)
    return R.check(monitor, False, mech, **detail)


def plan(tier, seed):
    cases = []
    for i in range(N_COUPLED[tier]):
        cases.append({'kind': 'coupled', 'run': i, 'weight': 10.0})
    for i in range(N_GRAIN[tier]):
        cases.append({'kind': 'grain', 'run': i, 'weight': 5.0})
    for i in range(N_FORMULA[tier]):
        cases.append({'kind': 'formula', 'block': i, 'nsets': SETS_PER_BLOCK, 'weight': 1.0})
    for i in range(N_RESET[tier]):      # appended last so that the indices (and random streams) of the older cases are unchanged
        cases.append({'kind': 'grain_reset', 'run': i, 'weight': 3.0})
    return cases


def run_case(case, R):
    rng = case_rng(case['seed'], PROPERTY, case['idx'])
    if case['kind'] == 'formula':
        _run_formula(case, R, rng)
    elif case['kind'] == 'grain':
        _run_grain(case, R, rng)
    elif case['kind'] == 'grain_reset':
        _run_grain_reset(case, R, rng)
    else:
        _run_coupled(case, R, rng)


# ================================================================================================
# (1) strength formulas

MECHS = ['Coherency', 'Modulus', 'APB', 'SFE', 'Interfacial']
PHASES = ['alpha', 'beta']


def _loguni(rng, lo, hi):
    return float(10.0 ** rng.uniform(lo, hi))


def _draw_params(rng):
    p = {}
    p['G'] = _loguni(rng, 10.0, 11.1)
    p['b'] = float(rng.uniform(0.2e-9, 0.4e-9))
    p['nu'] = float(rng.uniform(0.15, 0.45))
    p['ri'] = None if rng.random() < 0.3 else p['b'] * _loguni(rng, -0.5, 1.0)
    u = rng.random()
    p['theta'] = 90.0 if u < 0.3 else (0.0 if u < 0.5 else float(rng.uniform(0.0, 90.0)))
    p['psi'] = float(rng.uniform(60.0, 170.0))
    p['T'] = 'simple' if rng.random() < 0.5 else 'complex'
    p['J'] = 'simple' if rng.random() < 0.5 else 'complex'
    p['M'] = float(rng.uniform(1.0, 3.2))
    p['exp'] = [float(rng.uniform(1.0, 2.5)) for _ in range(4)]
    p['sigma0'] = 0.0 if rng.random() < 0.2 else _loguni(rng, 6.0, 8.5)
    p['ssweights'] = {'X': _loguni(rng, 7.0, 10.0), 'Y': 0.0 if rng.random() < 0.3 else _loguni(rng, 7.0, 10.0)}
    p['ssexp'] = float(rng.choice([0.5, 2.0 / 3.0, 1.0, 2.0]))
    mech = {}
    for m in MECHS:
        if rng.random() < 0.55:
            # where the mechanism is defined: globally, for one phase only, globally with a phase override
            scope = str(rng.choice(['all', 'alpha', 'beta', 'all+beta', 'alpha+beta']))
            mech[m] = scope
    p['mech'] = mech

    def val(m):
        if m == 'Coherency':
            e = _loguni(rng, -4.0, -1.5)
            return -e if rng.random() < 0.05 else e
        if m == 'Modulus':
            return _loguni(rng, 10.0, 11.3)
        if m == 'APB':
            return _loguni(rng, -2.0, 0.0)
        if m == 'SFE':
            return _loguni(rng, -2.3, -0.5)
        return _loguni(rng, -2.0, 0.3)
    p['val'] = {m: {ph: val(m) for ph in ['all'] + PHASES} for m in MECHS}
    p['w1'] = float(rng.uniform(0.0175, 0.0722))
    p['w2'] = float(rng.uniform(0.72, 0.9))
    p['s'] = int(rng.choice([1, 2]))
    p['beta'] = float(rng.uniform(0.05, 1.0))
    p['V'] = float(rng.uniform(1.0, 4.0))
    p['ySFM'] = _loguni(rng, -2.3, -0.5)
    p['bp'] = None if rng.random() < 0.5 else p['b'] * float(rng.uniform(0.5, 1.0))
    return p


def _build_sm(p, theta=None, all_mechs=False):
    from kawin.precipitation.coupling import StrengthModel
    sm = StrengthModel()
    sm.setDislocationParameters(p['G'], p['b'], p['nu'], p['ri'], theta=p['theta'] if theta is None else theta, psi=p['psi'])
    sm.setTmodel(p['T'])
    sm.setJfactor(p['J'])
    sm.setTaylorFactor(p['M'])
    e = p['exp']
    sm.setStrengthSuperpositionExponent(e[0], e[1], e[2], e[3])
    sm.setBaseStrength(p['sigma0'])
    sm.setSolidSolutionStrength(dict(p['ssweights']), p['ssexp'])
    mech = {m: 'all' for m in MECHS} if all_mechs else p['mech']
    for m, scope in mech.items():
        for ph in scope.split('+'):
            v = p['val'][m][ph]
            if m == 'Coherency':
                sm.setCoherencyParameters(v, phase=ph)
            elif m == 'Modulus':
                sm.setModulusParameters(v, p['w1'], p['w2'], phase=ph)
            elif m == 'APB':
                sm.setAPBParameters(v, p['s'], p['beta'], p['V'], phase=ph)
            elif m == 'SFE':
                sm.setSFEParameters(p['ySFM'], v, p['bp'], phase=ph)
            else:
                sm.setInterfacialParameters(v, phase=ph)
    return sm


def _active(p, phase):
    """labels of the mechanisms that apply to `phase` under the documented rule (global or phase specific)"""
    out = []
    for m in MECHS:
        scope = p['mech'].get(m)
        if scope is None:
            continue
        parts = scope.split('+')
        if 'all' in parts or phase in parts:
            out.append(m)
    return out


def _draw_points(rng, ri, n=48):
    """(r, Ls) >= 0 with zeros, sub-core and sub-half-core radii, tiny spacings, ordinary values"""
    r = 10.0 ** rng.uniform(-9.7, -6.5, n)
    L = 10.0 ** rng.uniform(-9.0, -5.0, n)
    r[0], L[0] = 0.0, 0.0
    r[1] = 0.0
    L[2] = 0.0
    r[3:9] = ri * rng.uniform(0.001, 0.5, 6)          # below half the core radius
    r[9:13] = ri * rng.uniform(0.5, 1.0, 4)           # between half and one core radius
    r[13] = ri / 2
    r[14] = ri
    L[15:19] = ri * rng.uniform(0.01, 1.0, 4)         # spacing below the core radius
    r[19] = ri * 1e-6
    k = int(rng.integers(20, n))
    r[k], L[k] = 0.0, 0.0
    return r, L


_OROWAN = 'orowan_negative_below_half_core'   # structural: the Orowan term itself is < 0 at a radius below ri/2


def _region(r, L, ri):
    if r == 0 and L == 0:
        return 'r=0,L=0'
    if r == 0:
        return 'r=0'
    if L == 0:
        return 'L=0'
    if r < ri / 2:
        return 'r<ri/2'
    if r < ri:
        return 'ri/2<=r<ri'
    return 'r>=ri'


def _first_bad(a):
    a = np.asarray(a, dtype=float)
    bad = ~np.isfinite(a) | (a < 0)
    if not bad.any():
        return None
    i = int(np.argmax(bad.ravel()))
    v = a.ravel()[i]
    return i, ('negative' if np.isfinite(v) else 'nonfinite'), float(v)


def _superpose(c, n, shape):
    c = np.asarray(c, dtype=float)
    if c.shape[0] == 0:
        return np.zeros(shape)
    return np.power(np.sum(np.power(c, n), axis=0), 1.0 / n)


def _rel(a, b):
    a = np.asarray(a, dtype=float)
    b = np.asarray(b, dtype=float)
    s = np.maximum(np.abs(a), np.abs(b))
    with np.errstate(all='ignore'):
        d = np.where(s > 0, np.abs(a - b) / np.where(s > 0, s, 1.0), 0.0)
    return d


def _check_contributions(R, sm, p, r, L, phase, ri):
    """monitors on one getStrengthContributions / combineStrengthContributions evaluation. Returns strength."""
    cfg = {'T': p['T'], 'J': p['J']}
    try:
        weak, strong, oro, labels = sm.getStrengthContributions(np.array(r), np.array(L), phase)
        weak, strong, oro = np.array(weak, dtype=float), np.array(strong, dtype=float), np.array(oro, dtype=float)
    except Exception as e:
        R.exception('contrib_nonneg_finite', e, {'call': 'getStrengthContributions'}, phase=phase, params=p)
        return None
    npts = np.size(r)
    rr, LL = np.atleast_1d(r), np.atleast_1d(L)
    expected = _active(p, phase)
    if list(labels) != expected:      # diagnostic only: which mechanisms the model applied to this phase
        R.observe('applied_mechanisms_differ_from_documented_rule')
    sub_half = (rr > 0) & (LL > 0) & (rr < ri / 2)
    for name, arr in (('weak', weak), ('strong', strong), ('orowan', oro)):
        if arr.size == 0:
            continue
        a2 = arr.reshape(-1, npts)            # (mechanisms, points); Orowan: one row
        bad = ~np.isfinite(a2) | (a2 < 0)
        if not bad.any():
            R.count('contrib_nonneg_finite', arr.size)
            continue
        # mechanism already on record (Orowan term itself negative below half the core radius) vs anything else
        known = bad & np.isfinite(a2) & sub_half[None, :] if name == 'orowan' else np.zeros_like(bad)
        for mask, is_known in ((bad & ~known, False), (known, True)):
            if not mask.any():
                continue
            i, j = (int(x) for x in np.argwhere(mask)[0])
            v = float(a2[i, j])
            _chk(R, 'contrib_nonneg_finite', False,
                 {'branch': name, 'cause': _OROWAN} if is_known else
                 {'branch': name, 'kind': ('negative' if np.isfinite(v) else 'nonfinite'), 'region': _region(rr[j], LL[j], ri), 'cause': 'other'},
                 value=v, r=rr[j], Ls=LL[j], ri=ri, phase=phase,
                 mechanism=(labels[i] if name != 'orowan' and len(labels) else None), params=p)
    # combination
    try:
        s_plain = np.array(sm.combineStrengthContributions(weak.copy(), strong.copy(), oro.copy()), dtype=float)
        s_cmp, _flag, (bw, bs, bo) = sm.combineStrengthContributions(weak.copy(), strong.copy(), oro.copy(), returnComparison=True)
        s_cmp, bw, bs, bo = (np.array(x, dtype=float) for x in (s_cmp, bw, bs, bo))
    except Exception as e:
        R.exception('taylor_min_rule', e, {'call': 'combineStrengthContributions'}, phase=phase, params=p)
        return None
    # strength finite and >= 0
    sc, bw1, bs1, bo1, o1 = (np.atleast_1d(x) for x in (s_cmp, bw, bs, bo, oro))
    bad = ~np.isfinite(sc) | (sc < 0)
    if not bad.any():
        R.count('strength_nonneg_finite', sc.size)
    else:
        known = bad & sub_half & (o1 < 0) & (bo1 <= bw1) & (bo1 <= bs1) & np.isfinite(sc)
        for mask, is_known in ((bad & ~known, False), (known, True)):
            if not mask.any():
                continue
            j = int(np.argmax(mask))
            lim = ['weak', 'strong', 'orowan'][int(np.argmin([bw1[j], bs1[j], bo1[j]]))]
            _chk(R, 'strength_nonneg_finite', False,
                 {'quantity': 'precipitate_strength', 'cause': _OROWAN} if is_known else
                 {'quantity': 'precipitate_strength', 'kind': ('negative' if np.isfinite(sc[j]) else 'nonfinite'), 'limiting': lim,
                  'region': _region(rr[j], LL[j], ri), 'cause': 'other'},
                 value=float(sc[j]), r=rr[j], Ls=LL[j], ri=ri, phase=phase, branches=[bw1[j], bs1[j], bo1[j]], params=p)
    # zero without precipitates
    z = (rr == 0) & (LL == 0)
    if z.any():
        vals = np.atleast_1d(s_cmp)[z]
        vals2 = np.atleast_1d(s_plain)[z]
        _chk(R, 'zero_without_precipitates', bool(np.all(vals == 0) and np.all(vals2 == 0)),
                {'path': 'combine'}, values=vals, phase=phase, params=p)
    # min rule on the model's own branch values
    ref_min = np.minimum(np.minimum(bw, bs), bo)
    d1 = _rel(s_cmp, ref_min)
    d2 = _rel(s_plain, s_cmp)
    ok = bool(np.all(d1 <= TOL_ARITH) and np.all(d2 <= TOL_ARITH))
    R.worst('min_rule_rel', float(max(np.max(d1), np.max(d2))))
    if not ok:
        j = int(np.argmax(np.maximum(d1, d2)))
        got = float(np.atleast_1d(s_cmp)[j])
        b3 = [float(np.atleast_1d(x)[j]) for x in (bw, bs, bo)]
        _chk(R, 'taylor_min_rule', False, dict(cfg, what='strength_vs_own_branches',
                                               picks=('max' if abs(got - max(b3)) <= 1e-12 * max(abs(got), 1e-300) else 'other')),
                strength=got, plain=float(np.atleast_1d(s_plain)[j]), branches=b3, r=rr[j], Ls=LL[j], phase=phase, params=p)
    else:
        R.count('taylor_min_rule', s_cmp.size)
    # branch values = Taylor factor x documented superposition of the returned contributions
    n1 = p['exp'][0]
    refs = (p['M'] * _superpose(weak, n1, oro.shape), p['M'] * _superpose(strong, n1, oro.shape), p['M'] * oro)
    for name, got, ref in zip(('weak', 'strong', 'orowan'), (bw, bs, bo), refs):
        fin = np.isfinite(ref) & np.isfinite(got)
        d = _rel(np.where(fin, got, 0.0), np.where(fin, ref, 0.0))
        R.worst('branch_value_rel', float(np.max(d)) if d.size else 0.0)
        okb = bool(np.all(d <= TOL_ARITH) and np.all(np.isfinite(got) == np.isfinite(ref)))
        if okb:
            R.count('taylor_min_rule', got.size)
        else:
            j = int(np.argmax(d))
            _chk(R, 'taylor_min_rule', False, dict(cfg, what='branch_vs_taylor_x_superposition', branch=name,
                                                   nmech=('1' if len(labels) == 1 else ('0' if len(labels) == 0 else '>=2'))),
                    got=float(np.atleast_1d(got)[j]), expected=float(np.atleast_1d(ref)[j]), r=rr[j], Ls=LL[j], phase=phase, params=p)
    return s_cmp


def _check_total(R, sm, p, ss, prec, rng, tag):
    """total >= parts and monotone; rows with an inadmissible part (negative / non finite) are skipped and counted"""
    ss = np.asarray(ss, dtype=float)
    prec = np.asarray(prec, dtype=float)
    good = np.isfinite(ss) & np.isfinite(prec) & (ss >= 0) & (prec >= 0)
    if (~good).any():
        R.observe('total_rows_skipped_invalid_part', int((~good).sum()))
    if not good.any():
        return
    ss, prec = ss[good], prec[good]
    s0 = float(sm.sigma0)
    try:
        tot = np.array(sm.totalStrength(ss.copy(), prec.copy()), dtype=float)
    except Exception as e:
        R.exception('total_ge_parts', e, {'call': 'totalStrength'}, params=p)
        return
    fb = _first_bad(tot)
    if fb is None:
        R.count('strength_nonneg_finite', tot.size)
    else:
        _chk(R, 'strength_nonneg_finite', False, {'quantity': 'total_strength', 'kind': fb[1], 'source': tag},
                value=fb[2], sigma0=s0, ss=ss[fb[0]], prec=prec[fb[0]], params=p)
        return
    slack = 1.0 - TOL_ARITH
    for name, part in (('base', np.full(tot.shape, s0)), ('solid_solution', ss), ('precipitate', prec)):
        ok = tot >= part * slack
        with np.errstate(all='ignore'):
            R.worst('total_below_part_rel', float(np.max(np.where(part > 0, (part - tot) / np.where(part > 0, part, 1.0), 0.0))))
        if ok.all():
            R.count('total_ge_parts', tot.size)
        else:
            j = int(np.argmin(ok))
            _chk(R, 'total_ge_parts', False, {'part': name, 'source': tag}, total=tot[j], part_value=part[j],
                    sigma0=s0, ss=ss[j], prec=prec[j], exponent=p['exp'][3], params=p)
    # monotone in each part (finite differences)
    for name in ('base', 'solid_solution', 'precipitate'):
        for bump in ('rel1e-6', 'rel1e-2', 'rel1', 'abs'):
            f = {'rel1e-6': 1e-6, 'rel1e-2': 1e-2, 'rel1': 1.0}.get(bump)
            s0b, ssb, pb = s0, ss, prec
            if name == 'base':
                s0b = s0 * (1 + f) if f is not None else s0 + 1e6
            elif name == 'solid_solution':
                ssb = ss * (1 + f) if f is not None else ss + 1e6
            else:
                pb = prec * (1 + f) if f is not None else prec + 1e6
            old = sm.sigma0
            try:
                sm.setBaseStrength(s0b)
                tot2 = np.array(sm.totalStrength(np.array(ssb), np.array(pb)), dtype=float)
            finally:
                sm.setBaseStrength(old)
            ok = tot2 >= tot * slack
            ok &= np.isfinite(tot2)
            if ok.all():
                R.count('total_monotone', tot.size)
            else:
                j = int(np.argmin(ok))
                _chk(R, 'total_monotone', False, {'part': name, 'bump': bump, 'source': tag}, before=tot[j], after=tot2[j],
                        sigma0=s0, ss=ss[j], prec=prec[j], exponent=p['exp'][3], params=p)


def _stub_host(rng, p, nphase):
    """duck-typed host: what StrengthModel.updateCoupledModel / precStrength / ssStrength read from a
    PrecipitateModel (phases, elements, PBM[p].PSD / PSDsize, pData.composition / n)"""
    from kawin.precipitation import PopulationBalanceModel
    h = types.SimpleNamespace()
    h.phases = np.array((PHASES + ['gamma'])[:nphase])
    h.elements = ['X', 'Y', 'Z'][:int(rng.integers(1, 4))]
    h.PBM = [PopulationBalanceModel(cMin=1e-10, cMax=float(10 ** rng.uniform(-8.5, -7)), bins=int(rng.integers(20, 60)),
                                    minBins=10, maxBins=80) for _ in range(nphase)]
    h.pData = types.SimpleNamespace(n=0, composition=np.array([[float(rng.uniform(0, 0.05)) for _ in h.elements]]))
    return h


def _stub_step(rng, h, empty):
    for pb in h.PBM:
        if empty or rng.random() < 0.25:
            pb.PSD = np.zeros(pb.bins)
        else:
            c = 10 ** rng.uniform(np.log10(pb.PSDsize[0]), np.log10(pb.PSDsize[-1]))
            w = c * rng.uniform(0.05, 0.5)
            pb.PSD = 10 ** rng.uniform(15, 24) * np.exp(-0.5 * ((pb.PSDsize - c) / w) ** 2)
            pb.PSD[pb.PSD < 1] = 0
    h.pData.n += 1
    row = np.clip(h.pData.composition[-1] * rng.uniform(0.8, 1.1, len(h.elements)), 0, 1)
    if rng.random() < 0.1:
        row[0] = 0.0
    h.pData.composition = np.vstack([h.pData.composition, row])


def _check_history_outputs(R, sm, host, p, rng, tag, ri):
    """precStrength / solidStrength / totalStrength on recorded histories (stub or real host)"""
    try:
        prec = np.array(sm.precStrength(host), dtype=float)
    except Exception as e:
        R.exception('strength_nonneg_finite', e, {'call': 'precStrength', 'source': tag}, params=p)
        return None
    rss, ls = np.array(sm.rss), np.array(sm.ls)
    bad = ~np.isfinite(prec) | (prec < 0)
    if len(prec) == len(rss) and bad.any():
        # rows in which some phase has a negative Orowan term below half the core radius (mechanism already on record)
        known_row = np.zeros(len(rss), dtype=bool)
        for q in range(rss.shape[1]):
            o = np.atleast_1d(np.asarray(sm.getStrengthContributions(rss[:, q].copy(), ls[:, q].copy(), host.phases[q])[2], dtype=float))
            known_row |= (o < 0) & (rss[:, q] > 0) & (ls[:, q] > 0) & (rss[:, q] < ri / 2)
        for mask, is_known in ((bad & ~known_row, False), (bad & known_row, True)):
            if not mask.any():
                continue
            j = int(np.argmax(mask))
            regs = sorted(set(_region(rss[j, q], ls[j, q], ri) for q in range(rss.shape[1])))
            _chk(R, 'strength_nonneg_finite', False,
                 {'quantity': 'precStrength', 'cause': _OROWAN} if is_known else
                 {'quantity': 'precStrength', 'kind': ('negative' if np.isfinite(prec[j]) else 'nonfinite'), 'source': tag,
                  'region': regs[0], 'cause': 'other'},
                 value=float(prec[j]), rss=rss[j], ls=ls[j], ri=ri, phases=list(host.phases), params=p)
    elif len(prec) == len(rss):
        R.count('strength_nonneg_finite', prec.size)
    if len(prec) != len(rss):
        _chk(R, 'strength_nonneg_finite', False, {'quantity': 'precStrength', 'kind': 'length', 'source': tag},
                got=len(prec), expected=len(rss))
        return None
    # rows without any precipitate
    empty = np.all((rss == 0) & (ls == 0), axis=1)
    if empty.any():
        _chk(R, 'zero_without_precipitates', bool(np.all(prec[empty] == 0)), {'path': 'precStrength', 'source': tag},
                values=prec[empty][:5], params=p)
    # one phase: identical to Taylor factor x min rule of that phase
    if rss.shape[1] == 1:
        w, s, o, _ = sm.getStrengthContributions(rss[:, 0].copy(), ls[:, 0].copy(), host.phases[0])
        ref = np.array(sm.combineStrengthContributions(w, s, o), dtype=float)
        adm = np.isfinite(ref) & (ref >= 0)      # rows with an inadmissible strength are reported by strength_nonneg_finite
        if (~adm).any():
            R.observe('one_phase_rows_skipped_invalid_strength', int((~adm).sum()))
        if adm.any():
            d = _rel(np.where(np.isfinite(prec[adm]), prec[adm], -1.0), ref[adm])
            okp = bool(np.all(d <= TOL_ARITH))
            _chk(R, 'taylor_min_rule', okp, {'what': 'one_phase_precStrength_vs_combine', 'source': tag, 'T': p['T'], 'J': p['J']},
                    worst=float(np.max(d)), params=p)
    # solid solution history
    ssh = np.array(sm.solidStrength, dtype=float)
    fb = _first_bad(ssh)
    if fb is None:
        R.count('strength_nonneg_finite', ssh.size)
    else:
        _chk(R, 'strength_nonneg_finite', False, {'quantity': 'solid_solution', 'kind': fb[1], 'source': tag}, value=fb[2], params=p)
    if len(ssh) == len(prec):
        _check_total(R, sm, p, ssh, prec, rng, tag)
    return prec


REDUCTION_PAIRS = [  # (mixed, edge/screw stem, which r0)
    ('coherencyWeak', 'coherencyWeak', 'weak'), ('coherencyStrong', 'coherencyStrong', 'strong'),
    ('modulusWeak', 'modulusWeak', 'weak'), ('APBweak', 'APBweak', 'weak'), ('APBstrong', 'APBstrong', 'strong'),
    ('SFEweak', 'SFEweakNarrow', 'weak'), ('SFEstrong', 'SFEstrongNarrow', 'strong'),
    ('interfacialWeak', 'interfacialWeak', 'weak')]


def _check_reduction(R, p, rng):
    n = 12
    r = 10.0 ** rng.uniform(-9.0, -7.0, n)
    L = 10.0 ** rng.uniform(-7.4, -5.5, n)
    evaluated = 0
    for theta, suffix in ((90.0, 'Edge'), (0.0, 'Screw')):
        sm = _build_sm(p, theta=theta, all_mechs=True)
        r0w = L / np.sqrt(np.cos(sm.psi / 2))
        Jval = float(sm.J)
        for mixed, stem, kind in REDUCTION_PAIRS:
            r0 = r0w if kind == 'weak' else L
            with np.errstate(all='ignore'):
                a = np.asarray(getattr(sm, mixed)(r, L, r0), dtype=float)
                c = np.asarray(getattr(sm, stem + suffix)(r, L, r0), dtype=float)
            fin = np.isfinite(a) & np.isfinite(c)
            if (~fin).any():
                R.observe('reduction_points_not_finite', int((~fin).sum()))
            if not fin.any():
                continue
            af, cf, rf, Lf = a[fin], c[fin], r[fin], L[fin]
            d = _rel(af, cf)
            evaluated += int(fin.sum())
            bad = d > TOL_REDUCE
            if not bad.any():
                R.worst('reduce_rel_' + mixed, float(np.max(d)))
                R.count('mixed_reduces', int(fin.sum()))
                continue
            # structural classification per point: is the specific formula exactly J times the mixed one?
            by_J = bad & (_rel(af * Jval, cf) <= TOL_REDUCE) if Jval != 1 else np.zeros_like(bad)
            for mask, off_by in ((bad & ~by_J, 'other'), (by_J, 'J')):
                if not mask.any():
                    continue
                j = int(np.argmax(np.where(mask, d, -1.0)))
                _chk(R, 'mixed_reduces', False,
                     {'formula': mixed, 'J': p['J'], 'off_by': 'J'} if off_by == 'J' else
                     {'formula': mixed, 'against': stem + suffix, 'J': p['J'], 'T': p['T'], 'off_by': 'other'},
                     T=p['T'], against=stem + suffix, mixed=float(af[j]), specific=float(cf[j]),
                     ratio=(float(cf[j] / af[j]) if af[j] != 0 else None), J_value=Jval, rel=float(d[j]),
                     r=float(rf[j]), Ls=float(Lf[j]), theta=theta, params=p)
    return evaluated


def _run_formula(case, R, rng):
    n2 = 0
    seen_zero = seen_sub = False
    for k in range(int(case['nsets'])):
        p = _draw_params(rng)
        ri = p['ri'] if p['ri'] is not None else p['b']
        sm = _build_sm(p)
        r, L = _draw_points(rng, ri)
        seen_zero = True
        seen_sub = seen_sub or bool(np.any((r > 0) & (r < ri / 2)))
        nact = max(len(_active(p, ph)) for ph in ['all'] + PHASES)
        if nact >= 2:
            n2 += 1
        R.observe('parameter_sets')
        R.observe('sets_T_%s_J_%s' % (p['T'], p['J']))
        strengths = {}
        for ph in ['all', 'alpha', 'beta', 'gamma']:
            strengths[ph] = _check_contributions(R, sm, p, r, L, ph, ri)
        # scalar form (as used by the repository's tests)
        j = int(rng.integers(0, len(r)))
        _check_contributions(R, sm, p, float(r[j]), float(L[j]), str(rng.choice(['all', 'alpha'])), ri)
        # total strength from the model's own precipitate strength (admissible rows) and random parts
        s = strengths.get('alpha')
        if s is not None:
            ss = np.where(rng.random(s.shape) < 0.15, 0.0, 10.0 ** rng.uniform(5.0, 9.0, s.shape))
            _check_total(R, sm, p, ss, s, rng, 'combine')
        m = 16
        ss = np.where(rng.random(m) < 0.2, 0.0, 10.0 ** rng.uniform(4.0, 9.5, m))
        pr = np.where(rng.random(m) < 0.2, 0.0, 10.0 ** rng.uniform(4.0, 9.5, m))
        _check_total(R, sm, p, ss, pr, rng, 'random')
        # histories through a duck-typed host
        if k % 4 == 0:
            nphase = int(rng.integers(1, 4))
            host = _stub_host(rng, p, nphase)
            sm2 = _build_sm(p)
            steps = int(rng.integers(3, 25))
            okh = True
            try:
                for i in range(steps):
                    _stub_step(rng, host, empty=(i < 2))
                    sm2.updateCoupledModel(host)
                    okh = okh and (len(sm2.rss) == len(sm2.ls) == len(sm2.solidStrength) == host.pData.n + 1)
            except Exception as e:
                R.exception('stub_history_len', e, {'call': 'updateCoupledModel', 'host': 'stub'}, params=p)
                continue
            _chk(R, 'stub_history_len', okh and np.shape(sm2.rss) == (steps + 1, nphase), {'host': 'stub'},
                    rows=[len(sm2.rss), len(sm2.ls), len(sm2.solidStrength)], steps=steps)
            R.observe('stub_hosts_%dphase' % nphase)
            _check_history_outputs(R, sm2, host, p, rng, 'stub', ri)
        # reduction of the mixed formulas
        _check_reduction(R, p, rng)
    R.info['sets_ge2_mechanisms'] = n2
    R.set_nontrivial(n2 >= 10 and seen_zero and seen_sub)


# ================================================================================================
# (2) grain growth

class _GrainWatch:
    """observer (coupling model of the grain model) + monitoring iterator for one GrainGrowthModel"""

    def __init__(self, gm, R, cfg, base_iter):
        self.gm, self.R, self.cfg = gm, R, cfg
        self.base = base_iter
        self.phase = 'free'
        self.history = 'first_run'          # first_run / second_call / after_reset ...
        self.steps = {'free': 0, 'drag': 0, 'frozen_all': 0, 'frozen_populated': 0}
        self.cap = None
        self.evals = 0
        self.prev_mean = None
        self.decreases = 0
        self.trace = []                     # (clock, recorded mean radius) after every step

    # --- iterator seam
    def __call__(self, f, t, X_old, updateX):
        gm = self.gm
        m3_old = float(np.sum(X_old * gm.pbm.PSDsize ** 3))

        def F(tt, x, getDt=False):
            out = f(tt, x, getDt) if getDt else f(tt, x)
            self.on_eval(np.array(x, copy=True), np.array(gm._growthRate, copy=True))
            return out
        X_new, dt = self.base(F, t, X_old, updateX)
        if m3_old > 0 and len(X_new) == len(gm.pbm.PSDsize):
            self.R.worst('gg_raw_volume_drift_per_step', abs(float(np.sum(X_new * gm.pbm.PSDsize ** 3)) / m3_old - 1))
        return X_new, dt

    def __eq__(self, other):
        return False

    def __hash__(self):
        return id(self)

    def on_eval(self, x, used):
        gm, R = self.gm, self.R
        self.evals += 1
        free = np.asarray(gm.grainGrowth(x), dtype=float)
        mech = {'path': 'solver', 'solver': self.cfg['solver'], 'phase': self.phase}
        if self.phase.startswith('free'):
            ok = bool(np.array_equal(used, free))
            _chk(R, 'gg_drag_rate', ok, dict(mech, what='zero_drag_changes_rate'), z=float(gm._z))
            return
        same_sign = (used * free >= 0) & ~((free == 0) & (used != 0))
        not_faster = np.abs(used) <= np.abs(free)
        ok = bool(same_sign.all() and not_faster.all() and np.isfinite(used).all())
        if ok:
            R.count('gg_drag_rate', used.size)
        else:
            j = int(np.argmin(same_sign & not_faster))
            _chk(R, 'gg_drag_rate', False, dict(mech, what=('reversed' if not same_sign[j] else 'accelerated'),
                                                 side=('growing' if free[j] > 0 else 'shrinking')),
                    free=float(free[j]), used=float(used[j]), z=float(gm._z))
        if self.phase.startswith('frozen'):
            if self.phase == 'frozen_all':
                okz = bool(np.all(used == 0))
            else:
                pop = x > 0
                faces = np.zeros(len(used), dtype=bool)
                faces[:-1] |= pop
                faces[1:] |= pop
                okz = bool(np.all(used[faces] == 0))
            _chk(R, 'gg_freeze', okz, dict(mech, what='rate_not_zero_above_critical_drag'),
                    max_used=float(np.max(np.abs(used))), z=float(gm._z))

    # --- observer seam (after every step of the grain model)
    def updateCoupledModel(self, gm):
        R = self.R
        self.steps[self.phase] = self.steps.get(self.phase, 0) + 1
        m3 = float(gm.pbm.ThirdMoment())
        R.worst('gg_volume_dev', abs(m3 - 1.0))
        _chk(R, 'gg_volume', abs(m3 - 1.0) <= TOL_ARITH, {'solver': self.cfg['solver'], 'phase': self.phase},
                third_moment=m3, step=len(gm.time) - 1)
        mean = float(gm.avgR[-1])
        # what the documented grid adjustment of this step did: nothing / classes appended / distribution re-sampled
        b = np.asarray(gm.pbm.PSDbounds)
        if len(b) == len(self._bounds) and np.array_equal(b, self._bounds):
            grid = 'same'
        elif len(b) > len(self._bounds) and np.allclose(b[:len(self._bounds)], self._bounds, rtol=1e-9, atol=0):
            grid = 'appended'
        else:
            grid = 'resampled'
        if grid != 'same':
            R.observe('grain_grid_' + grid)
        self._bounds = np.array(b, copy=True)
        if self.phase.startswith('free') and self.prev_mean is not None:
            ok = mean >= self.prev_mean * (1.0 - TOL_ARITH) and math.isfinite(mean)
            if self.prev_mean > 0:
                R.worst('gg_mean_decrease_rel', (self.prev_mean - mean) / self.prev_mean)
            _chk(R, 'gg_mean_nondecreasing', ok, {'solver': self.cfg['solver'], 'grid': grid, 'history': self.history},
                    dist=self.cfg['dist'], before=self.prev_mean, after=mean, step=len(gm.time) - 1, bins=len(gm.pbm.PSD))
            if grid == 'resampled' and self.prev_mean > 0:
                R.worst('gg_mean_decrease_rel_at_resampling', (self.prev_mean - mean) / self.prev_mean)
        elif self.phase == 'drag' and self.prev_mean is not None and mean < self.prev_mean:
            self.decreases += 1
        self.prev_mean = mean
        self.trace.append((float(gm.time[-1]), mean))
        if self.cap is not None and self.steps[self.phase] >= self.cap:
            raise StopRun()


def _drag_host(z_target, rng):
    """duck-typed host for computeZenerRadius: z = f^m / (K * Ravg) summed over phases (documented);
    returns (host, m, K) reproducing z_target with one or two phases"""
    nph = int(rng.integers(1, 3))
    f = rng.uniform(0.001, 0.1, nph)
    m = float(rng.choice([1.0, 0.93, 0.5]))
    K = float(rng.choice([4.0 / 3.0, 1.0, 0.17]))
    share = rng.dirichlet(np.ones(nph))
    Ravg = f ** m / (K * z_target * share)
    h = types.SimpleNamespace()
    h.phases = np.array(['p%d' % i for i in range(nph)])
    h.pData = types.SimpleNamespace(n=0, Ravg=np.array([Ravg]), volFrac=np.array([f]))
    return h, m, K


def _make_grain(R, rng, dist=None):
    """random standalone GrainGrowthModel with an admissible (contained) initial distribution -> (gm, cfg, a) or None"""
    from kawin.precipitation.coupling import GrainGrowthModel
    from kawin.solver import SolverType
    cfg = {}
    cfg['solver'] = 'rk4' if rng.random() < 0.6 else 'euler'
    cfg['dist'] = str(rng.choice(['lognormal_data', 'lognormal_fn', 'normal_fn', 'bimodal_fn']))
    if dist is not None:
        cfg['dist'] = dist
    mean = _loguni(rng, -7.0, -5.0)
    sig = float(rng.uniform(0.1, 0.45))
    bins = int(rng.integers(30, 100)) * 2
    minBins = int(bins * rng.uniform(0.55, 0.9))
    maxBins = int(bins * rng.uniform(1.15, 1.6))
    cMax = mean * float(rng.uniform(3.5, 8.0))
    cMin = float(rng.choice([1e-10, mean / 200.0]))
    gbe = float(rng.uniform(0.2, 1.0))
    Mob = _loguni(rng, -15.0, -12.0)
    alpha = float(rng.uniform(0.5, 1.5))
    cfg.update(mean=mean, sigma=sig, bins=bins, minBins=minBins, maxBins=maxBins, cMax=cMax, cMin=cMin, gbe=gbe, M=Mob, alpha=alpha)
    gm = GrainGrowthModel(cMin=cMin, cMax=cMax, bins=bins, minBins=minBins, maxBins=maxBins,
                          solverType=SolverType.RK4 if cfg['solver'] == 'rk4' else SolverType.EXPLICITEULER)
    gm.setGrainBoundaryEnergy(gbe)
    gm.setGrainBoundaryMobility(Mob)
    gm.setAlpha(alpha)
    # admissible initial distributions are contained in the grid (support ends at 0.85 cMax): the model extends the
    # grid only after a step in which the last class holds more than one grain, so a distribution cut off by the grid
    # edge loses its largest grains through the upper boundary in the first step (not part of the statement).
    cut = 0.85 * cMax
    if cfg['dist'] == 'lognormal_data':
        data = rng.lognormal(np.log(mean), sig, 50000)
        gm.LoadDistribution(data[data < cut])
    elif cfg['dist'] == 'lognormal_fn':
        gm.LoadDistributionFunction(lambda r: np.exp(-np.log(r / mean) ** 2 / (2 * sig ** 2)) / r * (r < cut))
    elif cfg['dist'] == 'normal_fn':
        gm.LoadDistributionFunction(lambda r: np.exp(-0.5 * ((r - mean) / (sig * mean)) ** 2) * (r < cut))
    else:
        gm.LoadDistributionFunction(lambda r: (np.exp(-0.5 * ((r - 0.7 * mean) / (0.12 * mean)) ** 2)
                                               + 0.2 * np.exp(-0.5 * ((r - 2.2 * mean) / (0.2 * mean)) ** 2)) * (r < cut))
    if gm.pbm.PSD[-1] > 1 or not np.isfinite(gm.avgR[0]) or gm.avgR[0] <= 0:
        R.observe('rejected_initial_distribution')
        return None
    return gm, cfg, alpha * Mob * gbe


def _run_grain(case, R, rng):
    from kawin.solver.Iterators import ExplicitEulerIterator, RK4Iterator
    made = _make_grain(R, rng)
    if made is None:
        R.set_nontrivial(False)
        return
    gm, cfg, a = made
    mean = cfg['mean']
    R.info['cfg'] = cfg
    watch = _GrainWatch(gm, R, cfg, RK4Iterator if cfg['solver'] == 'rk4' else ExplicitEulerIterator)
    watch._bounds = np.array(gm.pbm.PSDbounds, copy=True)
    watch.prev_mean = float(gm.avgR[0])
    gm.addCouplingModel(watch)
    m3 = float(gm.pbm.ThirdMoment())
    _chk(R, 'gg_volume', abs(m3 - 1.0) <= TOL_ARITH, {'solver': cfg['solver'], 'phase': 'initial'}, third_moment=m3)

    def solve(t, phase, cap):
        watch.phase = phase
        watch.cap = cap
        t_before = float(gm.time[-1])
        try:
            gm.solve(t, solverType=watch)
            return t_before, False
        except StopRun:
            R.observe('grain_runs_capped')
            return t_before, True
        except Exception as e:
            R.exception('gg_volume', e, {'solver': cfg['solver'], 'phase': phase, 'what': 'solve_raised'}, cfg=cfg)
            return t_before, None

    # --- free growth: R^2 grows ~ linearly with a*t (Hillert); target growth factor 1.3-3
    growth = float(rng.uniform(1.3, 3.0))
    t_free = (growth ** 2 - 1.0) * mean ** 2 / (0.5 * a)
    _, st = solve(t_free, 'free', MAX_GRAIN_STEPS)
    if st is None:
        R.set_nontrivial(False)
        return
    R.observe('grain_steps_free', watch.steps['free'])
    R.info['mean_growth'] = float(gm.avgR[-1] / gm.avgR[0])

    # --- direct calls of constrainedGrowth (random rates and the model's own free rate)
    g_model = np.asarray(gm.grainGrowth(gm.pbm.PSD), dtype=float)
    for trial in range(12):
        if trial < 4:
            g = g_model.copy()
        else:
            g = rng.normal(0, 1, len(g_model)) * 10.0 ** rng.uniform(-14, -4)
            g[rng.random(len(g)) < 0.1] = 0.0
        gmax = float(np.max(np.abs(g)))
        z = [0.0, gmax / a * float(rng.uniform(0.01, 0.9)), gmax / a * (1 + 1e-9), gmax / a * _loguni(rng, 0.01, 3)][trial % 4]
        c = np.asarray(gm.constrainedGrowth(g.copy(), z), dtype=float)
        same_sign = (c * g >= 0) & ~((g == 0) & (c != 0))
        not_faster = np.abs(c) <= np.abs(g)
        ok = bool(same_sign.all() and not_faster.all() and np.isfinite(c).all())
        if ok:
            R.count('gg_drag_rate', c.size)
        else:
            j = int(np.argmin(same_sign & not_faster))
            _chk(R, 'gg_drag_rate', False, {'path': 'direct', 'what': ('reversed' if not same_sign[j] else 'accelerated'),
                                            'side': ('growing' if g[j] > 0 else 'shrinking')},
                    free=float(g[j]), constrained=float(c[j]), z=z, a=a)
        if trial % 4 == 0:
            _chk(R, 'gg_drag_rate', bool(np.array_equal(c, g)), {'path': 'direct', 'what': 'zero_drag_changes_rate'})
        if trial % 4 >= 2:
            _chk(R, 'gg_freeze', bool(np.all(c == 0)), {'path': 'direct', 'what': 'rate_not_zero_above_critical_drag'},
                    max_constrained=float(np.max(np.abs(c))), z=z, critical=gmax / a)

    # --- moderate drag: a fraction of 1/Rcr (pins the large grains, not the small ones)
    Rcr = float(gm.Rcr(gm.pbm.PSD))
    z_mod = float(rng.uniform(0.05, 0.8)) / Rcr
    host, mz, Kz = _drag_host(z_mod, rng)
    gm.setZenerParameters(mz, Kz)
    gm.computeZenerRadius(host)
    R.worst('zener_z_rel_dev', abs(gm._z / z_mod - 1))
    watch.prev_mean = float(gm.avgR[-1])
    _, st = solve(t_free * float(rng.uniform(0.1, 0.5)), 'drag', 1500)
    if st is None:
        R.set_nontrivial(False)
        return
    R.observe('grain_steps_drag', watch.steps['drag'])
    R.observe('grain_mean_decreases_under_drag', watch.decreases)

    # --- supercritical drag: (i) above the critical drag of every class boundary, (ii) of the populated classes
    for variant in ('frozen_all', 'frozen_populated'):
        x = np.array(gm.pbm.PSD, copy=True)
        g = np.asarray(gm.grainGrowth(x), dtype=float)
        if variant == 'frozen_all':
            zc = float(np.max(np.abs(g))) / a
        else:
            pop = x > 0
            faces = np.zeros(len(g), dtype=bool)
            faces[:-1] |= pop
            faces[1:] |= pop
            zc = float(np.max(np.abs(g[faces]))) / a
        z = zc * (1.0 + _loguni(rng, -6.0, 1.0))
        host, mz, Kz = _drag_host(z, rng)
        gm.setZenerParameters(mz, Kz)
        gm.computeZenerRadius(host)
        if not gm._z >= zc * (1 + 1e-9):      # rounding in the stub arithmetic: make sure we are above
            host.pData.Ravg = host.pData.Ravg / (1 + 1e-6)
            gm.computeZenerRadius(host)
        bounds0 = np.array(gm.pbm.PSDbounds, copy=True)
        mean0 = float(gm.avgR[-1])
        nrec0 = len(gm.time)
        t_hold = t_free * float(rng.uniform(0.01, 1.0))
        t0, st = solve(t_hold, variant, 50)
        if st is None:
            break
        x1 = np.array(gm.pbm.PSD, copy=True)
        mech = {'variant': variant, 'solver': cfg['solver']}
        if len(gm.pbm.PSDbounds) != len(bounds0) or not np.array_equal(gm.pbm.PSDbounds, bounds0):
            R.observe('frozen_remesh')
        else:
            d = _rel(x1, x)
            R.worst('gg_freeze_psd_rel', float(np.max(d)))
            _chk(R, 'gg_freeze', bool(np.max(d) <= TOL_ARITH), dict(mech, what='distribution_changed'),
                    worst=float(np.max(d)), z=float(gm._z), critical=zc, steps=watch.steps[variant])
            dm = abs(float(gm.avgR[-1]) / mean0 - 1.0)
            _chk(R, 'gg_freeze', dm <= TOL_ARITH, dict(mech, what='mean_size_changed'), before=mean0, after=float(gm.avgR[-1]))
        dt_clock = abs(float(gm.time[-1]) - (t0 + t_hold)) / (t0 + t_hold)
        _chk(R, 'gg_freeze', (not st) and dt_clock <= TOL_ARITH and len(gm.time) > nrec0, dict(mech, what='clock_not_advanced'),
                clock=float(gm.time[-1]), expected=t0 + t_hold, steps=watch.steps[variant])
        R.observe('grain_steps_' + variant, watch.steps[variant])
        # the public coupling entry point under the same (frozen) drag: the grain clock must follow the host clock
        # (added after seeded change C18-a: an early return for a fully pinned structure skipped the clock update)
        for j in range(3):
            tprev = float(gm.time[-1])
            dt_h = t_hold * float(rng.uniform(0.05, 0.5))
            host.pData.time = np.array([tprev, tprev + dt_h])
            host.pData.Ravg = np.vstack([host.pData.Ravg[-1], host.pData.Ravg[-1]])
            host.pData.volFrac = np.vstack([host.pData.volFrac[-1], host.pData.volFrac[-1]])
            host.pData.n = 1
            nrec = len(gm.time)
            try:
                gm.updateCoupledModel(host)
            except StopRun:
                break
            dclk = abs(float(gm.time[-1]) - (tprev + dt_h)) / (tprev + dt_h)
            _chk(R, 'coupled_clock', dclk <= TOL_ARITH and len(gm.time) > nrec,
                 {'host': 'stub', 'regime': variant, 'grain_solver': cfg['solver']},
                 host_clock=tprev + dt_h, grain_clock=float(gm.time[-1]), z=float(gm._z), critical=zc)
            R.observe('stub_host_steps_frozen')
    R.info['steps'] = dict(watch.steps)
    R.info['rate_evaluations'] = watch.evals
    R.set_nontrivial(watch.steps['free'] >= 30)


# ------------------------------------------------------------------------------------------------
# (2b) histories with reset():  load -> solve -> (solve) -> reset() -> solve, standalone and driven by a host

def _grain_snapshot(gm):
    return {'psd': np.array(gm.pbm.PSD, copy=True), 'bounds': np.array(gm.pbm.PSDbounds, copy=True),
            'm3': float(gm.pbm.ThirdMoment()), 'mean': float(gm.Rm(gm.pbm.PSD)), 'avgR0': float(gm.avgR[0])}


def _check_reset_state(R, gm, loaded, mech):
    """State right after reset(). ASSERTED (statement: total grain volume is conserved over any number of solve calls): the
    third moment is 1. OBSERVED only (the statement of C18 says nothing about what reset() restores; all of it holds bitwise on
    the tree this check was written against): distribution, class bounds, mean of the distribution, clock and history length
    equal the loaded, normalised state."""
    def _obs(ok, what):
        R.observe('reset_state_compared_' + what)
        if not ok:
            R.observe('reset_state_differs_' + what)
        return bool(ok)
    psd, b = np.asarray(gm.pbm.PSD, dtype=float), np.asarray(gm.pbm.PSDbounds, dtype=float)
    m3 = float(gm.pbm.ThirdMoment())
    ok = _chk(R, 'gg_volume', abs(m3 - 1.0) <= TOL_ARITH, dict(mech, phase='state_after_reset'), third_moment=m3, loaded=loaded['m3'])
    same_shape = psd.shape == loaded['psd'].shape and b.shape == loaded['bounds'].shape
    if not _obs(same_shape, 'grid_size'):
        return bool(ok)
    d = float(np.max(_rel(psd, loaded['psd'])))
    R.worst('reset_state_psd_rel', d)
    _obs(d <= TOL_ARITH, 'distribution')
    db = float(np.max(_rel(b, loaded['bounds'])))
    _obs(db <= TOL_ARITH and len(gm.pbm.PSDsize) == len(psd), 'class_bounds')
    mean = float(gm.Rm(gm.pbm.PSD))
    _obs(abs(mean / loaded['mean'] - 1.0) <= TOL_ARITH, 'mean_size_of_distribution')
    _obs(len(gm.time) == 1 and float(gm.time[-1]) == 0.0 and len(gm.avgR) == 1 and gm._z == 0, 'clock_and_histories')
    if float(gm.avgR[0]) != loaded['avgR0']:
        R.observe('reset_leaves_avgR0_different_from_loaded')      # recorded, not asserted (see module docstring)
    return bool(ok)


def _observe_retrace(R, first, second, psd1, psd2, pair):
    """OBSERVATION only (no verdict): does the second run retrace the first one from the same distribution?
    The statement of C18 does not claim it; residuals and a counter are recorded as evidence."""
    n1, n2 = len(first), len(second)
    same = n1 == n2
    if same and n1 > 0:
        a, b = np.array(first, dtype=float), np.array(second, dtype=float)
        dt, dr = float(np.max(_rel(a[:, 0], b[:, 0]))), float(np.max(_rel(a[:, 1], b[:, 1])))
        R.worst('retrace_time_rel_' + pair, dt)
        R.worst('retrace_mean_rel_' + pair, dr)
        same = dt <= TOL_ARITH and dr <= TOL_ARITH
        if psd1.shape == psd2.shape:
            dp = float(np.max(_rel(psd1, psd2)))
            R.worst('retrace_psd_rel_' + pair, dp)
            same = same and dp <= TOL_ARITH
        else:
            same = False
    elif n1 > 0 and n2 > 0:
        R.worst('retrace_mean_rel_at_end_' + pair, abs(first[-1][1] / second[-1][1] - 1.0))
    R.observe('retrace_compared_' + pair)
    if not same:
        R.observe('reset_run_does_not_retrace_first_run' if pair == 'first_run_vs_after_reset'
                  else 'runs_after_reset_differ_from_each_other')
    return same


def _run_grain_reset(case, R, rng):
    from kawin.solver.Iterators import ExplicitEulerIterator, RK4Iterator
    # distributions loaded from data (LoadDistribution) and from a function in equal shares
    dist = 'lognormal_data' if case['run'] % 2 == 0 else None
    made = _make_grain(R, rng, dist=dist)
    if made is None:
        R.set_nontrivial(False)
        return
    gm, cfg, a = made
    cfg['driver'] = 'standalone' if (case['run'] // 2) % 2 == 0 else 'stub_host'
    cfg['loader'] = 'data' if cfg['dist'] == 'lognormal_data' else 'function'
    ncalls = int(rng.integers(1, 3))
    growth = float(rng.uniform(1.08, 1.5))
    t_tot = (growth ** 2 - 1.0) * cfg['mean'] ** 2 / (0.5 * a)
    cuts = [t_tot] if ncalls == 1 else [t_tot * float(rng.uniform(0.2, 0.7))]
    if ncalls == 2:
        cuts.append(t_tot - cuts[0])
    nhost = int(rng.integers(4, 12))
    host_fracs = rng.dirichlet(np.ones(nhost) * 2.0)
    cfg.update(solve_times=cuts, host_steps_per_call=nhost)
    R.info['cfg'] = cfg
    mech = {'loader': cfg['loader'], 'driver': cfg['driver'], 'solver': cfg['solver']}
    loaded = _grain_snapshot(gm)
    _chk(R, 'gg_volume', abs(loaded['m3'] - 1.0) <= TOL_ARITH, dict(mech, phase='loaded'), third_moment=loaded['m3'])
    watch = _GrainWatch(gm, R, cfg, RK4Iterator if cfg['solver'] == 'rk4' else ExplicitEulerIterator)
    gm.addCouplingModel(watch)

    def one_run(label):
        """all solve calls of one run from the current (loaded / reset) state; returns trace or None on error"""
        watch.trace = []
        watch._bounds = np.array(gm.pbm.PSDbounds, copy=True)
        watch.prev_mean = float(gm.Rm(gm.pbm.PSD))       # mean size of the distribution the run starts from
        host = types.SimpleNamespace(phases=np.array(['p0']),
                                     pData=types.SimpleNamespace(n=0, time=np.zeros(1), Ravg=np.zeros((1, 1)), volFrac=np.zeros((1, 1))))
        for i, ts in enumerate(cuts):
            watch.history = label if i == 0 else label + '_second_call'
            watch.phase = 'free'
            watch.cap = None
            try:
                if cfg['driver'] == 'standalone':
                    t_end = float(gm.time[-1]) + ts
                    gm.solve(ts, solverType=watch)
                    R.worst('standalone_clock_vs_requested_end_rel', abs(float(gm.time[-1]) - t_end) / t_end)
                else:
                    for f in host_fracs:          # the public coupling entry point, host without precipitates (drag 0)
                        p = host.pData
                        p.time = np.append(p.time, p.time[-1] + ts * float(f))
                        p.Ravg = np.vstack([p.Ravg, np.zeros((1, 1))])
                        p.volFrac = np.vstack([p.volFrac, np.zeros((1, 1))])
                        p.n += 1
                        gm.updateCoupledModel(host)
                        th, tg = float(p.time[p.n]), float(gm.time[-1])
                        _chk(R, 'coupled_clock', abs(tg - th) <= TOL_ARITH * th, {'host': 'stub', 'regime': 'free', 'history': label,
                                                                                  'grain_solver': cfg['solver']},
                             host_clock=th, grain_clock=tg, step=int(p.n))
                        R.observe('stub_host_steps_free')
            except Exception as e:
                R.exception('gg_volume', e, dict(mech, what='run_raised', history=label), cfg=cfg)
                return None
        return list(watch.trace)

    di_loaded = int(gm.dissolutionIndex)
    first = one_run('first_run')
    if first is None:
        R.set_nontrivial(False)
        return
    psd1 = np.array(gm.pbm.PSD, copy=True)
    R.observe('reset_history_steps_first_run', len(first))
    runs = []
    for label in ('after_reset', 'after_second_reset'):
        try:
            gm.reset()
        except Exception as e:
            R.exception('gg_volume', e, dict(mech, what='reset_raised'), cfg=cfg)
            R.set_nontrivial(False)
            return
        R.observe('resets')
        di_reset = int(gm.dissolutionIndex)
        _check_reset_state(R, gm, loaded, dict(mech, history=label))
        tr = one_run(label)
        if tr is None:
            R.set_nontrivial(False)
            return
        runs.append((tr, np.array(gm.pbm.PSD, copy=True)))
    second, psd2 = runs[0]
    third, psd3 = runs[1]
    # observations, not verdicts (the statement does not claim that a run after reset() retraces the first run):
    # reset() leaves dissolutionIndex = 0 and avgR[0] = 0 whereas the Load* functions derive both from the distribution,
    # so the step limiter sees the nearly empty smallest classes and the first step after reset() is shorter.
    if di_reset != di_loaded:
        R.observe('reset_does_not_restore_dissolution_index')
    _observe_retrace(R, first, second, psd1, psd2, 'first_run_vs_after_reset')
    _observe_retrace(R, second, third, psd2, psd3, 'after_reset_vs_after_second_reset')
    R.info['steps'] = [len(first), len(second)]
    R.set_nontrivial(len(first) >= 30)


# ================================================================================================
# (3) coupled to a precipitation model

def _alzr_model(cfg):
    """binary Al-Zr set-up of kawin/tests/test_precipitation.py (fresh thermodynamics object per run)"""
    from kawin.tests.datasets import ALZR_TDB
    from kawin.thermo import BinaryThermodynamics
    from kawin.precipitation import PrecipitateModel, VolumeParameter
    th = BinaryThermodynamics(ALZR_TDB, ['AL', 'ZR'], ['FCC_A1', 'AL3ZR'], drivingForceMethod='tangent')
    th.setDFSamplingDensity(2000)
    th.setEQSamplingDensity(500)
    th.setDiffusivity(lambda T: 0.0768 * np.exp(-242000 / (8.314 * T)), 'FCC_A1')
    model = PrecipitateModel(phases=['AL3ZR'], elements=['ZR'])
    model.setPBMParameters(cMin=1e-10, cMax=1e-8, bins=75, minBins=50, maxBins=100)
    model.setInitialComposition(cfg['x0'])
    model.setTemperature(cfg['T'])
    model.setInterfacialEnergy(0.1)
    a = 0.405e-9
    model.setVolumeAlpha(a ** 3, VolumeParameter.ATOMIC_VOLUME, 4)
    model.setVolumeBeta(a ** 3, VolumeParameter.ATOMIC_VOLUME, 4)
    model.setNucleationDensity(grainSize=1, dislocationDensity=1e15)
    model.setNucleationSite('dislocations')
    model.setThermodynamics(th)
    model.setConstraints(dtScale=cfg['dtScale'])
    return model


class _HostObserver:
    def __init__(self, R, sm, gm, cfg):
        self.R, self.sm, self.gm, self.cfg = R, sm, gm, cfg
        self.steps = 0
        self.cap = MAX_HOST_STEPS
        self.z_positive = 0
        self.rss_positive = 0
        self.call = 0

    def updateCoupledModel(self, model):
        R = self.R
        self.steps += 1
        n = int(model.pData.n)
        mech = {'host': 'PrecipitateModel', 'with_grain': self.gm is not None, 'with_strength': self.sm is not None,
                'first_call': self.call == 0}
        if self.sm is not None:
            sm = self.sm
            rows = [len(sm.rss) if sm.rss is not None else 0, len(sm.ls) if sm.ls is not None else 0,
                    len(sm.solidStrength) if sm.solidStrength is not None else 0]
            ok = rows == [n + 1] * 3 and n == self.steps and len(model.pData.time) == n + 1
            _chk(R, 'coupled_strength_len', ok, mech, rows=rows, host_n=n, steps_seen=self.steps, solve_call=self.call)
            if sm.rss is not None and np.any(sm.rss[-1] > 0):
                self.rss_positive += 1
        if self.gm is not None:
            th, tg = float(model.pData.time[n]), float(self.gm.time[-1])
            d = abs(tg - th) / abs(th) if th != 0 else abs(tg)
            R.worst('coupled_clock_rel', d)
            _chk(R, 'coupled_clock', d <= TOL_ARITH and n == self.steps, dict(mech, grain_solver=self.cfg['grain_solver']),
                    host_clock=th, grain_clock=tg, step=n, solve_call=self.call)
            if self.gm._z > 0:
                self.z_positive += 1
        if self.steps >= self.cap:
            raise StopRun()


def _run_coupled(case, R, rng):
    from kawin.precipitation.coupling import GrainGrowthModel
    from kawin.solver import SolverType
    cfg = {'T': float(rng.uniform(693.0, 753.0)), 'x0': float(rng.uniform(3e-3, 5e-3)),
           'dtScale': float(rng.choice([0.2, 0.3, 0.5])), 'host_solver': 'rk4' if rng.random() < 0.5 else 'euler',
           'grain_solver': 'rk4' if rng.random() < 0.6 else 'euler',
           'attach': str(rng.choice(['both', 'both', 'both', 'strength', 'grain'])),
           'order': str(rng.choice(['strength_first', 'grain_first']))}
    ncalls = int(rng.integers(1, 4))
    ttot = _loguni(rng, 1.5, 3.0)
    cuts = np.sort(10.0 ** rng.uniform(-1.0, np.log10(ttot), ncalls - 1)) if ncalls > 1 else np.array([])
    edges = np.concatenate([[0.0], cuts, [ttot]])
    cfg['solve_times'] = [float(x) for x in np.diff(edges)]
    R.info['cfg'] = cfg
    try:
        model = _alzr_model(cfg)
    except Exception as e:
        R.observe('host_setup_failed')
        R.info['host_error'] = repr(e)[:300]
        R.set_nontrivial(False)
        return
    p = _draw_params(rng)
    # realistic Al-base values, keep the drawn model options / mechanisms / exponents
    p.update(G=25.4e9, b=0.286e-9, nu=0.34, ssweights={'ZR': _loguni(rng, 8.0, 10.0)})
    p['ri'] = None if rng.random() < 0.5 else p['b'] * float(rng.uniform(0.5, 5.0))
    ri = p['ri'] if p['ri'] is not None else p['b']
    p['mech'] = {m: 'all' for m in MECHS if rng.random() < 0.7}
    if rng.random() < 0.5:
        p['mech']['APB'] = 'AL3ZR'
        p['val']['APB']['AL3ZR'] = p['val']['APB']['all']
    sm = gm = gm_loaded = None
    if cfg['attach'] in ('both', 'strength'):
        sm = _build_sm(p)
    if cfg['attach'] in ('both', 'grain'):
        gm = GrainGrowthModel(cMin=1e-10, cMax=0.5e-5, bins=150, minBins=100, maxBins=200,
                              solverType=SolverType.RK4 if cfg['grain_solver'] == 'rk4' else SolverType.EXPLICITEULER)
        gm.setGrainBoundaryMobility(_loguni(rng, -15.0, -13.5))
        gm.LoadDistribution(rng.lognormal(np.log(1e-6), 0.2, 50000))
        gm_loaded = _grain_snapshot(gm)
        if rng.random() < 0.6:      # strong pinning: the structure freezes once a small precipitate fraction exists
            gm.setZenerParameters(float(rng.choice([0.5, 0.3, 0.2])), float(rng.choice([4.0 / 3.0, 1.8, 0.5])))
            cfg['strong_pinning'] = True
    coupled = [m for m in ((sm, gm) if cfg['order'] == 'strength_first' else (gm, sm)) if m is not None]
    for m in coupled:
        model.addCouplingModel(m)
    obs = _HostObserver(R, sm, gm, cfg)
    model.addCouplingModel(obs)          # last: sees the coupled models after they were updated
    st = SolverType.RK4 if cfg['host_solver'] == 'rk4' else SolverType.EXPLICITEULER
    for i, ts in enumerate(cfg['solve_times']):
        obs.call = i
        try:
            model.solve(ts, solverType=st)
        except StopRun:
            R.observe('coupled_runs_capped')
            break
        except Exception as e:
            from vlib.core import kawin_frame
            fr = kawin_frame(e.__traceback__)
            if fr is not None and ('coupling/' in fr[0]):
                R.exception('coupled_strength_len' if 'Strength' in fr[0] else 'coupled_clock', e,
                            {'host': 'PrecipitateModel', 'what': 'coupled_update_raised'}, cfg=cfg)
            else:
                R.observe('host_run_failed')
                R.info['host_error'] = repr(e)[:300]
            break
        R.observe('solve_calls_completed')
        # after a completed call the host clock is the requested end time and so is the grain clock
        if gm is not None:
            n = int(model.pData.n)
            d = abs(float(gm.time[-1]) - float(model.pData.time[n])) / float(model.pData.time[n])
            _chk(R, 'coupled_clock', d <= TOL_ARITH, {'host': 'PrecipitateModel', 'at': 'end_of_solve_call',
                                                      'grain_solver': cfg['grain_solver']},
                    host_clock=float(model.pData.time[n]), grain_clock=float(gm.time[-1]), solve_call=i)
    # --- history with reset(): host.reset() + grain.reset() (examples/08), then the first solve call again
    if gm is not None and 'host_error' not in R.info and obs.steps > 0:
        try:
            model.reset()
            gm.reset()
        except Exception as e:
            from vlib.core import kawin_frame
            fr = kawin_frame(e.__traceback__)
            if fr is not None and 'coupling/' in fr[0]:
                R.exception('gg_volume', e, {'driver': 'PrecipitateModel', 'what': 'reset_raised'}, cfg=cfg)
            else:
                R.observe('host_reset_failed')
            gm_loaded = None
        if gm_loaded is not None:
            R.observe('resets')
            _check_reset_state(R, gm, gm_loaded, {'loader': 'data', 'driver': 'PrecipitateModel', 'solver': cfg['grain_solver'],
                                                  'history': 'after_reset'})
            model.clearCouplingModels()
            sm2 = _build_sm(p) if sm is not None else None        # StrengthModel has no reset(): a new one is attached
            for m in [m for m in ((sm2, gm) if cfg['order'] == 'strength_first' else (gm, sm2)) if m is not None]:
                model.addCouplingModel(m)
            obs2 = _HostObserver(R, sm2, gm, cfg)
            obs2.cap = 60
            obs2.call = 'after_reset'
            model.addCouplingModel(obs2)
            try:
                model.solve(cfg['solve_times'][0], solverType=st)
                R.observe('solve_calls_completed_after_reset')
            except StopRun:
                R.observe('coupled_runs_capped')
            except Exception as e:
                from vlib.core import kawin_frame
                fr = kawin_frame(e.__traceback__)
                if fr is not None and ('coupling/' in fr[0]):
                    R.exception('coupled_strength_len' if 'Strength' in fr[0] else 'coupled_clock', e,
                                {'host': 'PrecipitateModel', 'what': 'coupled_update_raised', 'history': 'after_reset'}, cfg=cfg)
                else:
                    R.observe('host_rerun_failed')
            R.observe('host_steps_after_reset', obs2.steps)
            m3 = float(gm.pbm.ThirdMoment())
            _chk(R, 'gg_volume', abs(m3 - 1.0) <= TOL_ARITH, {'solver': cfg['grain_solver'], 'phase': 'coupled_after_reset'}, third_moment=m3)
    R.observe('host_steps', obs.steps)
    R.observe('host_steps_with_drag', obs.z_positive)
    R.observe('host_steps_with_precipitates', obs.rss_positive)
    R.info['host_steps'] = obs.steps
    if gm is not None:
        R.info['grain_records'] = len(gm.time)
        m3 = float(gm.pbm.ThirdMoment())
        _chk(R, 'gg_volume', abs(m3 - 1.0) <= TOL_ARITH, {'solver': cfg['grain_solver'], 'phase': 'coupled'}, third_moment=m3)
    if sm is not None and sm.rss is not None and obs.steps > 0:
        _check_history_outputs(R, sm, model, p, rng, 'PrecipitateModel', ri)
    R.set_nontrivial(obs.steps >= 30)


MANIFEST = {
    'text': 'Random StrengthModel parameter sets (both line-tension and both J models, global / phase-specific / overriding mechanisms) are '
            'evaluated on radius/spacing arrays with zeros and sub-core radii: every contribution, branch, precipitate, solid-solution and total '
            'strength must be finite and non-negative, zero without precipitates, strength = Taylor factor x min of the model\'s own branches, total >= '
            'each part and monotone, mixed formulas = edge/screw formulas at 90/0 degrees (5e-3). Standalone GrainGrowthModel runs (real solver, '
            'monitoring iterator + observer) check volume (1e-12), mean size without drag, sign/magnitude of the drag-constrained rate at every '
            'derivative evaluation and the freeze above the critical drag; histories load -> solve -> reset() -> solve (data and function loaders, standalone / stub host / real host) '
            'check the state after reset(), volume and mean size across the reset and that the run after reset() retraces the first run. Short Al-Zr PrecipitateModel runs with both models attached check history '
            'length = steps+1 and grain clock = host clock after every host step over 1-3 solve calls.',
    'note': 'trusted: numpy; the superposition rule documented in setStrengthSuperpositionExponent as reference for branch values; sampled, not exhaustive; '
            'phase-specific dictionaries beyond 3 phases not covered',
    'technique': 'invariant hooks at public method returns and per accepted step (observer + monitoring iterator), reference-model monitor for the min rule',
}
